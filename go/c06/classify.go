package main

// Turning a disagreement between the store and the reference model into a
// signature.  One root-cause class = one signature, independent of run order:
//
//	C06/panic/<query|op kind>
//	C06/isolation/<op>(<dag>[-><dag>])-changed(<other dag>)   an operation on one DAG changed the answers for another
//	C06/lookup/glob-metachar-in-name(<bracket|star|question>)                 answers = the model without the runs that ever lived under a name with a glob metacharacter
//	C06/latest/same-second-order, C06/recent/same-second-order   right runs, wrong order among runs started within the same second
//	C06/<latest|recent>/order-ignores-start-time/timestamp-like-text-in-name   right statuses of runs of a DAG whose NAME contains text shaped like a start time, not the most recently started / not newest first
//	C06/retention/removed-run-within-period | kept-older-run     (after removeold)
//	C06/delete/run-still-returned                                (after removeall)
//	C06/rename/run-not-carried | run-left-behind                 (after rename)
//	C06/<find|latest|recent>/<missing|phantom|older-run|foreign-run|wrong-status|wrong-order|wrong-runs>/after-<op kind>[/only-<observers>]

import (
	"regexp"
	"sort"
	"strings"
)

const metachars = "[*?\\"

func metaOf(lineage string) string {
	out := ""
	for _, c := range metachars {
		if strings.ContainsRune(lineage, c) && !strings.ContainsRune(out, c) {
			out += string(c)
		}
	}
	return out
}

// metaNames spells the characters out: signatures are matched with fnmatch
// patterns, so they must not contain glob metacharacters themselves.
func metaNames(chars string) string {
	names := map[rune]string{'[': "bracket", '*': "star", '?': "question", '\\': "backslash"}
	var out []string
	for _, ch := range chars {
		out = append(out, names[ch])
	}
	return strings.Join(out, "+")
}

func ids(it []Item) []string {
	s := make([]string, len(it))
	for i, x := range it {
		s[i] = x.ID
	}
	return s
}

func sameStrings(a, b []string) bool {
	if len(a) != len(b) {
		return false
	}
	for i := range a {
		if a[i] != b[i] {
			return false
		}
	}
	return true
}

func discKind(m *Model, q Query, want, got []Item) string {
	switch {
	case len(got) == 0 && len(want) > 0:
		return "missing"
	case len(want) == 0 && len(got) > 0:
		return "phantom"
	}
	if q.Kind != "recent" {
		if got[0].ID == want[0].ID {
			return "wrong-status"
		}
		if m.find(q.Dag, got[0].ID) == nil {
			return "foreign-run"
		}
		return "older-run"
	}
	wi, gi := ids(want), ids(got)
	if sameStrings(wi, gi) {
		return "wrong-status"
	}
	inWant := map[string]bool{}
	for _, id := range wi {
		inWant[id] = true
	}
	extra, foreign := false, false
	for _, id := range gi {
		if !inWant[id] {
			extra = true
			if m.find(q.Dag, id) == nil {
				foreign = true
			}
		}
	}
	switch {
	case foreign:
		return "foreign-run"
	case !extra && len(gi) < len(wi):
		return "missing"
	case !extra && len(gi) == len(wi):
		return "wrong-order"
	case len(gi) > len(wi):
		return "phantom"
	}
	return "wrong-runs"
}

// sameSecondOrder: got holds the right statuses of runs of this DAG, and
// differs from want only in which of several runs started within the same
// second comes first.
func sameSecondOrder(m *Model, q Query, want, got []Item) bool {
	if q.Kind == "find" || len(want) != len(got) || len(want) == 0 {
		return false
	}
	differ := false
	for i := range want {
		rw, rg := m.find(q.Dag, want[i].ID), m.find(q.Dag, got[i].ID)
		if rw == nil || rg == nil || got[i].Payload != rg.Last {
			return false
		}
		if rw != rg {
			differ = true
			if !sameSecond(rw.T, rg.T) {
				return false
			}
		}
	}
	return differ
}

// tsLike: the text the store takes for the start time of a history file (jsondb.go rTimestamp).
var tsLike = regexp.MustCompile(`2\d{7}.\d{2}:\d{2}:\d{2}`)

// startTimeIgnored: the DAG's name itself contains text of the shape of a start time, and the answer is made
// of right statuses of runs of this DAG, only not the most recently started ones / not newest first.
func startTimeIgnored(m *Model, q Query, want, got []Item) bool {
	if q.Kind == "find" || !tsLike.MatchString(q.Dag) || len(got) == 0 || len(got) != len(want) {
		return false
	}
	seen := map[string]bool{}
	for _, g := range got {
		r := m.find(q.Dag, g.ID)
		if r == nil || r.Last != g.Payload || seen[g.ID] {
			return false
		}
		seen[g.ID] = true
	}
	return true
}

func opTargets(o Op, before *Model) []string {
	switch o.K {
	case "write", "close":
		d, _ := before.findAny(o.R)
		return []string{d}
	case "rename":
		return []string{o.D, o.To}
	}
	return []string{o.D}
}

// classify returns the signature for one wrong answer. wrong/all = observer names.
func classify(q Query, want, got []Item, panicked bool, wrong, all []string, before, after *Model, last Op, answers []Answer) string {
	if panicked {
		return "C06/panic/" + q.Kind
	}
	// an operation on one DAG changed what is returned for another
	targets := opTargets(last, before)
	touched := false
	for _, t := range targets {
		if t == q.Dag {
			touched = true
		}
	}
	if !touched {
		lbl := last.K + "(" + strings.Join(targets, "->") + ")"
		return "C06/isolation/" + lbl + "-changed(" + q.Dag + ")"
	}
	// explained by "runs that ever lived under a name containing glob metacharacter(s) X are invisible"
	// (single characters first, then all of them together)
	meta := ""
	for _, r := range after.Runs[q.Dag] {
		for _, ch := range metaOf(r.Lineage) {
			if !strings.ContainsRune(meta, ch) {
				meta += string(ch)
			}
		}
	}
	if meta != "" {
		b := []byte(meta)
		sort.Slice(b, func(i, j int) bool { return strings.IndexByte(metachars, b[i]) < strings.IndexByte(metachars, b[j]) })
		hyps := []string{}
		for _, ch := range b {
			hyps = append(hyps, string(ch))
		}
		if len(b) > 1 {
			hyps = append(hyps, string(b))
		}
		for _, h := range hyps {
			// the hypothesis must explain every answer about this DAG file, of every store instance
			keep := func(r *Run) bool { return !strings.ContainsAny(r.Lineage, h) }
			explains := true
			for _, a := range answers {
				if a.Q.Dag != q.Dag {
					continue
				}
				exp := after.expect(a.Q, keep)
				for _, ob := range a.Obs {
					if g := a.Got[ob]; g.Panic != "" || !equalItems(exp, g.Items) {
						explains = false
					}
				}
			}
			if explains {
				return "C06/lookup/glob-metachar-in-name(" + metaNames(h) + ")"
			}
		}
	}
	if sameSecondOrder(after, q, want, got) {
		return "C06/" + q.Kind + "/same-second-order"
	}
	if startTimeIgnored(after, q, want, got) {
		return "C06/" + q.Kind + "/order-ignores-start-time/timestamp-like-text-in-name"
	}
	kind := discKind(after, q, want, got)
	switch last.K {
	case "removeold":
		if kind == "missing" {
			return "C06/retention/removed-run-within-period"
		}
		if kind == "phantom" {
			return "C06/retention/kept-older-run"
		}
	case "removeall":
		if kind == "phantom" {
			return "C06/delete/run-still-returned"
		}
	case "rename":
		if kind == "missing" {
			return "C06/rename/run-not-carried"
		}
		if kind == "phantom" {
			return "C06/rename/run-left-behind"
		}
	}
	sig := "C06/" + q.Kind + "/" + kind + "/after-" + last.K
	if len(wrong) < len(all) {
		sig += "/only-" + strings.Join(wrong, "+")
	}
	return sig
}
