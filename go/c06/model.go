package main

// Reference model of the history store, deliberately boring: per DAG file a
// list of runs (start time, request id, last recorded status, mtime class).
// The oracle is the property statement, nothing more:
//
//   - lookup by request id  -> last status recorded for that run of that DAG
//   - latest status         -> last status of the most recently STARTED run
//                              (of today when so configured)
//   - recent(n)             -> the n most recently started runs, newest first
//   - rename carries every run; retention removes the runs whose file is older
//     than the period; nothing done to one DAG touches another.

import (
	"fmt"
	"hash/fnv"
	"sort"
	"strings"
	"time"
)

// ---- alphabet -------------------------------------------------------------

// Start times, relative to "today" (UTC midnight computed once at start).
type timeSpec struct {
	Label string
	At    func(today time.Time) time.Time
}

var times = []timeSpec{
	{"today00:00:00.000", func(d time.Time) time.Time { return d }},
	{"today00:00:00.001", func(d time.Time) time.Time { return d.Add(1 * time.Millisecond) }},
	{"today00:00:00.002", func(d time.Time) time.Time { return d.Add(2 * time.Millisecond) }},
	{"today00:00:01.000", func(d time.Time) time.Time { return d.Add(1 * time.Second) }},
	{"yesterday23:59:59.999", func(d time.Time) time.Time { return d.Add(-1 * time.Millisecond) }},
	{"40daysago12:00:00.000", func(d time.Time) time.Time { return d.AddDate(0, 0, -40).Add(12 * time.Hour) }},
	{"45daysago12:00:00.000", func(d time.Time) time.Time { return d.AddDate(0, 0, -45).Add(12 * time.Hour) }},
	{"10daysago12:00:00.000", func(d time.Time) time.Time { return d.AddDate(0, 0, -10).Add(12 * time.Hour) }},
}

const (
	tT0 = iota
	tT1
	tT2
	tT3
	tY
	tOld
	tOld2
	tMid
)

func timeIndex(label string) int {
	for i, t := range times {
		if t.Label == label {
			return i
		}
	}
	return -1
}

// All DAG file names of the property's alphabet (index = stable id used in request ids).
var allDags = []string{"a.yaml", "a b.yaml", "a.b.yaml", "a_c.yaml", "ab.yaml", "a[1].yaml", "a*.yaml", "a?.yaml",
	// names made of the fragments the store itself puts into history file names: the extension .dat, the
	// compaction suffix _c next to it, the definition extension in the middle, a complete timestamped
	// history-file stem (searches extname/*)
	"x.dat.yaml", "sales.data.yaml", "a.dat_c.yaml", "a_c.dat.yaml", ".dat.yaml", "a.yaml.b.yaml",
	"a.20240101.10:00:00.000.abcdef12.yaml"}

func dagIndex(d string) int {
	for i, n := range allDags {
		if n == d {
			return i
		}
	}
	return -1
}

// Request ids: a function of (DAG of creation, start time), so that the model
// state does not depend on creation order.  All ids issued for one DAG share
// their first 8 characters (the store puts only those into the file name);
// ids issued for different DAGs differ there, so that two different runs never
// map to the same file name even after renames.
func reqID(d string, t int) string {
	if i := dagIndex(d); i >= 8 {
		return fmt.Sprintf("5e1fd%03d-0000-4000-8000-%012d", i, t)
	}
	return fmt.Sprintf("5e1fc06%d-0000-4000-8000-%012d", dagIndex(d), t)
}

// Request ids of the search ids/a (Search.IDs = "mixed"): the store puts only the first 8
// characters of a request id into the file name, so the id alphabet of that search holds every
// relation two ids of one DAG can have with respect to that cut: full-length ids sharing their
// first 8 characters, a full-length id differing there, an id of exactly 8 characters (equal to
// the file-name part of the long ones), and ids shorter than 8 characters that are prefixes of
// each other and of all the former.  Again a function of (DAG, start time).
var mixedIDs = map[int]string{
	tT0:  "c%d6e1f50-0000-4000-8000-000000000000", // 36 characters
	tT1:  "c%d6e",                                 // 4 characters: a prefix of every other id but the distinct one
	tT2:  "d%d7d15c6-0000-4000-8000-000000000002", // 36 characters, distinct in the first 8
	tT3:  "c%d6e1f50",                             // exactly the 8 characters the long ids share
	tY:   "c%d6e1f50-0000-4000-8000-000000000004", // 36 characters, shares the first 8 (and 35) with the id of tT0
	tOld: "c%d6e1f",                               // 6 characters
}

func (s *Search) id(d string, t int) string {
	if s != nil && s.IDs == "mixed" {
		if f, ok := mixedIDs[t]; ok {
			return fmt.Sprintf(f, dagIndex(d))
		}
	}
	return reqID(d, t)
}

// trunc8: the part of a request id the store puts into the file name.
func trunc8(id string) string {
	if len(id) > 8 {
		return id[:8]
	}
	return id
}

// idRelation: how the id addressed by an operation relates to the other ids recorded under the
// DAG (signature facet of the ids/* searches).
func idRelation(id string, others []*Run) string {
	share, isPrefix, extends := false, false, false
	for _, r := range others {
		if r.ID == id {
			continue
		}
		switch {
		case strings.HasPrefix(r.ID, id):
			isPrefix = true
		case strings.HasPrefix(id, r.ID):
			extends = true
		case trunc8(r.ID) == trunc8(id):
			share = true
		}
	}
	var p []string
	if share {
		p = append(p, "shares-first-8")
	}
	if isPrefix {
		p = append(p, "is-prefix-of-another")
	}
	if extends {
		p = append(p, "extends-another")
	}
	if len(p) == 0 {
		return "unrelated"
	}
	return strings.Join(p, "+")
}

// Op is one operation of the alphabet (also the replay format).
type Op struct {
	K    string `json:"k"`              // run | open | write | close | update | rename | removeold | removeall
	D    string `json:"d,omitempty"`    // DAG file
	T    string `json:"t,omitempty"`    // start time label (run, open)
	R    string `json:"r,omitempty"`    // request id
	To   string `json:"to,omitempty"`   // rename target
	Days int    `json:"days,omitempty"` // removeold
	Size string `json:"size,omitempty"` // run, open, write, update: size class of the recorded status ("" small, "1k", "70k")
}

func (o Op) String() string {
	switch o.K {
	case "run", "open":
		return fmt.Sprintf("%s(%s,%s,%s%s)", o.K, o.D, o.T, o.R, sizeArg(o.Size))
	case "write", "close":
		return fmt.Sprintf("%s(%s%s)", o.K, o.R, sizeArg(o.Size))
	case "update":
		return fmt.Sprintf("update(%s,%s%s)", o.D, o.R, sizeArg(o.Size))
	case "rename":
		return fmt.Sprintf("rename(%s->%s)", o.D, o.To)
	case "removeold":
		return fmt.Sprintf("removeold(%s,%d)", o.D, o.Days)
	case "removeall":
		return fmt.Sprintf("removeall(%s)", o.D)
	}
	return o.K
}

func sizeArg(size string) string {
	if size == "" {
		return ""
	}
	return ",payload~" + size
}

func opsString(ops []Op) string {
	s := make([]string, len(ops))
	for i, o := range ops {
		s[i] = o.String()
	}
	return strings.Join(s, " ; ")
}

// ---- model ----------------------------------------------------------------

type Run struct {
	ID      string
	T       int    // index into times
	Last    string // payload key of the last recorded status
	Open    bool   // writer still open (separate store instance, like an agent process)
	Fresh   bool   // file touched by Update: mtime = now instead of the nominal start time
	Lineage string // DAG names the run has lived under, "|"-joined (classification only)
}

type Model struct {
	Dags   []string
	Runs   map[string][]*Run // ascending start time
	Used   map[string]uint32 // start times ever present under this DAG name (bit per time index)
	Issued []string          // request ids ever issued, in order
}

func newModel(dags []string) *Model {
	return &Model{Dags: dags, Runs: map[string][]*Run{}, Used: map[string]uint32{}}
}

func (m *Model) clone() *Model {
	c := &Model{Dags: m.Dags, Runs: make(map[string][]*Run, len(m.Runs)), Used: make(map[string]uint32, len(m.Used)),
		Issued: append([]string(nil), m.Issued...)}
	for d, rs := range m.Runs {
		cp := make([]*Run, len(rs))
		for i, r := range rs {
			x := *r
			cp[i] = &x
		}
		c.Runs[d] = cp
	}
	for d, u := range m.Used {
		c.Used[d] = u
	}
	return c
}

func (m *Model) find(d, id string) *Run {
	for _, r := range m.Runs[d] {
		if r.ID == id {
			return r
		}
	}
	return nil
}

func (m *Model) findAny(id string) (string, *Run) {
	for _, d := range m.Dags {
		if r := m.find(d, id); r != nil {
			return d, r
		}
	}
	return "", nil
}

func (m *Model) openCount() int {
	n := 0
	for _, d := range m.Dags {
		for _, r := range m.Runs[d] {
			if r.Open {
				n++
			}
		}
	}
	return n
}

// hash: canonical form of the property-relevant part (sorted; lineage and the
// list of issued ids are not part of it).
func (m *Model) hash() uint64 {
	h := fnv.New64a()
	for _, d := range m.Dags {
		fmt.Fprintf(h, "%s:", d)
		for _, r := range m.Runs[d] {
			fmt.Fprintf(h, "%s,%d,%s,%v,%v;", r.ID, r.T, r.Last, r.Open, r.Fresh)
		}
		fmt.Fprintf(h, "|%d\n", m.Used[d])
	}
	return h.Sum64()
}

func (m *Model) String() string {
	var sb strings.Builder
	for _, d := range m.Dags {
		fmt.Fprintf(&sb, "%q:[", d)
		for i, r := range m.Runs[d] {
			if i > 0 {
				sb.WriteString(" ")
			}
			fmt.Fprintf(&sb, "%s@%s=%s", r.ID, times[r.T].Label, r.Last)
			if r.Open {
				sb.WriteString("(open)")
			}
			if r.Fresh {
				sb.WriteString("(mtime=now)")
			}
		}
		sb.WriteString("] ")
	}
	return sb.String()
}

// Bounds of one search.
type Search struct {
	Name    string
	Dags    []string
	Times   []int
	Kinds   string // space separated op kinds enabled
	Days    []int
	Depth   int
	MaxRuns int
	MaxOpen int
	Sizes   []string // payload size classes of the statuses recorded by run/open/write/update (nil = small only)
	IDs     string   // request-id scheme: "" = reqID (one shared 8-character prefix per DAG), "mixed" = mixedIDs
}

func (s *Search) has(kind string) bool {
	for _, k := range strings.Fields(s.Kinds) {
		if k == kind {
			return true
		}
	}
	return false
}

// universe: every operation of the search's alphabet, simplest first.
func (s *Search) universe() []Op {
	var u []Op
	var ids []string
	for _, d := range s.Dags {
		for _, t := range s.Times {
			ids = append(ids, s.id(d, t))
		}
	}
	sizes := s.Sizes
	if len(sizes) == 0 {
		sizes = []string{""}
	}
	if s.has("run") {
		for _, sz := range sizes {
			for _, t := range s.Times {
				for _, d := range s.Dags {
					u = append(u, Op{K: "run", D: d, T: times[t].Label, R: s.id(d, t), Size: sz})
				}
			}
		}
	}
	if s.has("open") {
		for _, sz := range sizes {
			for _, t := range s.Times {
				for _, d := range s.Dags {
					u = append(u, Op{K: "open", D: d, T: times[t].Label, R: s.id(d, t), Size: sz})
				}
			}
		}
		for _, sz := range sizes {
			for _, id := range ids {
				u = append(u, Op{K: "write", R: id, Size: sz})
			}
		}
		for _, id := range ids {
			u = append(u, Op{K: "close", R: id})
		}
	}
	if s.has("update") {
		for _, sz := range sizes {
			for _, d := range s.Dags {
				for _, id := range ids {
					u = append(u, Op{K: "update", D: d, R: id, Size: sz})
				}
			}
		}
	}
	if s.has("rename") {
		for _, d := range s.Dags {
			for _, to := range s.Dags {
				if d != to {
					u = append(u, Op{K: "rename", D: d, To: to})
				}
			}
		}
	}
	if s.has("removeold") {
		for _, days := range s.Days {
			for _, d := range s.Dags {
				u = append(u, Op{K: "removeold", D: d, Days: days})
			}
		}
	}
	if s.has("removeall") {
		for _, d := range s.Dags {
			u = append(u, Op{K: "removeall", D: d})
		}
	}
	return u
}

// enabled: what a caller can really do in this state, inside the stated bounds.
func (m *Model) enabled(o Op, s *Search) bool {
	switch o.K {
	case "run", "open":
		t := timeIndex(o.T)
		if m.Used[o.D]&(1<<uint(t)) != 0 { // same-millisecond starts within one DAG are excluded (stated bound)
			return false
		}
		if s != nil {
			if len(m.Issued) >= s.MaxRuns {
				return false
			}
			if o.K == "open" && m.openCount() >= s.MaxOpen {
				return false
			}
		}
		return true
	case "write", "close":
		_, r := m.findAny(o.R)
		return r != nil && r.Open
	case "update":
		// the client refuses to update the status of a run that is still running
		r := m.find(o.D, o.R)
		return r != nil && !r.Open
	case "rename":
		if len(m.Runs[o.D]) == 0 {
			return false
		}
		for _, r := range m.Runs[o.D] {
			for _, q := range m.Runs[o.To] {
				if r.T == q.T {
					return false // would put two same-millisecond starts into one DAG
				}
			}
		}
		return true
	case "removeold", "removeall":
		return len(m.Runs[o.D]) > 0
	}
	return false
}

// Payload keys: <kind>[+<size class>], e.g. "done", "run-B", "upd-A+70k".
func withSize(key, size string) string {
	if size == "" {
		return key
	}
	return key + "+" + size
}

func splitPayload(key string) (base, size string) {
	if i := strings.IndexByte(key, '+'); i >= 0 {
		return key[:i], key[i+1:]
	}
	return key, ""
}

// toggle: the next status of that kind differs from the last one recorded (a, b alternate).
func toggle(last, a, b, size string) string {
	if base, _ := splitPayload(last); base == a {
		return withSize(b, size)
	}
	return withSize(a, size)
}

// older: would retention with the given number of days remove this run's file?
// now = the harness's start time; nominal times are chosen so that the answer
// does not change while the check runs (see guards in main).
func (r *Run) older(days int, today, now time.Time) bool {
	if r.Fresh {
		return days == 0 // mtime is the moment of the Update, i.e. before "now" of the retention call
	}
	return times[r.T].At(today).Before(now.AddDate(0, 0, -days))
}

// apply returns the successor model (m is not changed).
func (m *Model) apply(o Op, today, now time.Time) *Model {
	c := m.clone()
	switch o.K {
	case "run", "open":
		t := timeIndex(o.T)
		r := &Run{ID: o.R, T: t, Last: withSize("done", o.Size), Lineage: o.D}
		if o.K == "open" {
			r.Last, r.Open = withSize("run-A", o.Size), true
		}
		c.Runs[o.D] = append(c.Runs[o.D], r)
		c.sortRuns(o.D)
		c.Used[o.D] |= 1 << uint(t)
		c.Issued = append(c.Issued, o.R)
	case "write":
		_, r := c.findAny(o.R)
		r.Last = toggle(r.Last, "run-A", "run-B", o.Size)
	case "close":
		_, r := c.findAny(o.R)
		r.Open = false
	case "update":
		r := c.find(o.D, o.R)
		r.Last = toggle(r.Last, "upd-A", "upd-B", o.Size)
		r.Fresh = true
	case "rename":
		for _, r := range c.Runs[o.D] {
			r.Lineage += "|" + o.To
			c.Runs[o.To] = append(c.Runs[o.To], r)
		}
		delete(c.Runs, o.D)
		c.sortRuns(o.To)
		c.Used[o.To] |= c.Used[o.D]
	case "removeold", "removeall":
		days := o.Days
		if o.K == "removeall" {
			days = 0
		}
		var keep []*Run
		for _, r := range c.Runs[o.D] {
			if !r.older(days, today, now) {
				keep = append(keep, r)
			}
		}
		if len(keep) == 0 {
			delete(c.Runs, o.D)
		} else {
			c.Runs[o.D] = keep
		}
	}
	return c
}

func (m *Model) sortRuns(d string) {
	rs := m.Runs[d]
	sort.SliceStable(rs, func(i, j int) bool { return startKey(rs[i].T) < startKey(rs[j].T) })
}

// startKey orders time indexes chronologically (offset from today's midnight in ms).
func startKey(t int) int64 {
	base := time.Date(2000, 3, 1, 0, 0, 0, 0, time.UTC)
	return times[t].At(base).Sub(base).Milliseconds()
}

func isToday(t int) bool { return t == tT0 || t == tT1 || t == tT2 || t == tT3 }

func sameSecond(a, b int) bool {
	base := time.Date(2000, 3, 1, 0, 0, 0, 0, time.UTC)
	return times[a].At(base).Truncate(time.Second).Equal(times[b].At(base).Truncate(time.Second))
}

// ---- oracle ---------------------------------------------------------------

// Query is one observation the property names.
type Query struct {
	Kind  string // find | latest | recent
	Dag   string
	ID    string // find
	Today bool   // latest: store configured with latestStatusToday
	N     int    // recent
}

func (q Query) String() string {
	switch q.Kind {
	case "find":
		return fmt.Sprintf("FindByRequestID(%s,%s)", q.Dag, q.ID)
	case "latest":
		if q.Today {
			return fmt.Sprintf("ReadStatusToday[latestStatusToday=true](%s)", q.Dag)
		}
		return fmt.Sprintf("ReadStatusToday[latestStatusToday=false](%s)", q.Dag)
	}
	return fmt.Sprintf("ReadStatusRecent(%s,%d)", q.Dag, q.N)
}

// Item is one returned status: the run it belongs to and the payload.
type Item struct {
	ID      string
	Payload string // payload key when the returned status is byte-for-byte one the harness wrote, else "?"+digest
}

func itemsString(it []Item) string {
	if len(it) == 0 {
		return "<none>"
	}
	s := make([]string, len(it))
	for i, x := range it {
		s[i] = x.ID + "=" + x.Payload
	}
	return strings.Join(s, ", ")
}

const recentAll = 100

// queries: every observation for the current model state.
func (m *Model) queries() []Query {
	var qs []Query
	for _, d := range m.Dags {
		for _, id := range uniq(m.Issued) {
			qs = append(qs, Query{Kind: "find", Dag: d, ID: id})
		}
	}
	for _, d := range m.Dags {
		qs = append(qs, Query{Kind: "latest", Dag: d, Today: true}, Query{Kind: "latest", Dag: d, Today: false})
		for _, n := range []int{1, 2, recentAll} {
			qs = append(qs, Query{Kind: "recent", Dag: d, N: n})
		}
	}
	return qs
}

func uniq(in []string) []string {
	seen := map[string]bool{}
	var out []string
	for _, s := range in {
		if !seen[s] {
			seen[s] = true
			out = append(out, s)
		}
	}
	return out
}

// expect: what the property demands for q. keep filters the runs considered
// (nil = all); it exists only for classification of a discrepancy.
func (m *Model) expect(q Query, keep func(*Run) bool) []Item {
	var rs []*Run
	for _, r := range m.Runs[q.Dag] {
		if keep == nil || keep(r) {
			rs = append(rs, r)
		}
	}
	switch q.Kind {
	case "find":
		for _, r := range rs {
			if r.ID == q.ID {
				return []Item{{r.ID, r.Last}}
			}
		}
		return nil
	case "latest":
		for i := len(rs) - 1; i >= 0; i-- {
			if !q.Today || isToday(rs[i].T) {
				return []Item{{rs[i].ID, rs[i].Last}}
			}
		}
		return nil
	case "recent":
		var out []Item
		for i := len(rs) - 1; i >= 0 && len(out) < q.N; i-- {
			out = append(out, Item{rs[i].ID, rs[i].Last})
		}
		return out
	}
	return nil
}

func equalItems(a, b []Item) bool {
	if len(a) != len(b) {
		return false
	}
	for i := range a {
		if a[i] != b[i] {
			return false
		}
	}
	return true
}
