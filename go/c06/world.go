package main

// The real side: one fresh jsondb installation per transition.

import (
	"crypto/sha1"
	"encoding/hex"
	"encoding/json"
	"fmt"
	"os"
	"path/filepath"
	"strings"
	"time"

	"github.com/ErdemOzgen/blackdagger/internal/dag"
	"github.com/ErdemOzgen/blackdagger/internal/dag/scheduler"
	"github.com/ErdemOzgen/blackdagger/internal/persistence/jsondb"
	"github.com/ErdemOzgen/blackdagger/internal/persistence/model"
)

var payloadKeys = []string{"done", "run-A", "run-B", "upd-A", "upd-B"}
var payloadSizes = []string{"", "1k", "70k"}

// padding: deterministic filler making the serialised status about 1 KiB / 70 KiB long
// (one status = one line of the history file; 70 KiB is beyond every 64 KiB line buffer).
func padding(size string) string {
	n := 0
	switch size {
	case "1k":
		n = 1024
	case "70k":
		n = 70 * 1024
	}
	if n == 0 {
		return ""
	}
	const unit = " p=0123456789abcdef-\u00fc\"q\"" // multi-byte and escaped characters inside
	var sb strings.Builder
	for sb.Len() < n {
		sb.WriteString(unit)
	}
	return sb.String()
}

// mkStatus: the status a caller records; a function of (request id, payload key).
func mkStatus(id, payload string) *model.Status {
	_, size := splitPayload(payload)
	st, nst := scheduler.StatusSuccess, scheduler.NodeStatusSuccess
	switch {
	case strings.HasPrefix(payload, "run"):
		st, nst = scheduler.StatusRunning, scheduler.NodeStatusRunning
	case strings.HasPrefix(payload, "upd"):
		st, nst = scheduler.StatusError, scheduler.NodeStatusError
	}
	pid := 4242
	if st != scheduler.StatusRunning {
		pid = -1
	}
	return &model.Status{
		RequestID: id, Name: "c06", Status: st, StatusText: st.String(), PID: model.PID(pid),
		Nodes: []*model.Node{{Step: dag.Step{Name: "s 1", Command: "echo", Args: []string{"a b", "\"q\"", "ü\n"}},
			Log: "/logs/" + id + "/s 1.log", StartedAt: "2000-03-01 00:00:00", FinishedAt: "-",
			Status: nst, StatusText: nst.String(), Error: "line1\nline2 \\ \"x\""}},
		StartedAt: "2000-03-01 00:00:00", FinishedAt: "-", Log: "/logs/" + id + ".log",
		Params: payload + ` "x y" K=ü` + padding(size),
	}
}

// canon: serialisation of a status as the store hands it back (JSON round trip).
func canon(st *model.Status) string {
	b, err := json.Marshal(st)
	if err != nil {
		return "marshal-error:" + err.Error()
	}
	return string(b)
}

var canonOf = map[string]string{} // canonical JSON -> payload key, per request id filled lazily

func payloadOf(st *model.Status) string {
	if st == nil {
		return "?nil"
	}
	got := canon(st)
	var cands []string
	for _, sz := range payloadSizes {
		if (len(got) > 60*1024) != (sz == "70k") {
			continue // cannot match by length
		}
		for _, p := range payloadKeys {
			cands = append(cands, withSize(p, sz))
		}
	}
	for _, p := range cands {
		k := st.RequestID + "\x00" + p
		want, ok := canonOf[k]
		if !ok {
			rt, err := model.StatusFromJSON(canon(mkStatus(st.RequestID, p)))
			if err != nil {
				want = "unparsable:" + err.Error()
			} else {
				want = canon(rt)
			}
			canonOf[k] = want
		}
		if want == got {
			return p
		}
	}
	h := sha1.Sum([]byte(got))
	return "?" + hex.EncodeToString(h[:4])
}

type World struct {
	root, data, dags string
	today            time.Time
	main             *jsondb.JSONDB // the long-lived writing instance (server / client side), latestStatusToday=true
	warmT, warmF     *jsondb.JSONDB // long-lived readers, queried after every step
	open             map[string]*jsondb.JSONDB
	openDag          map[string]string
	opErrs           []string
}

func newWorld(root string, today time.Time) *World {
	w := &World{root: root, data: filepath.Join(root, "data"), dags: filepath.Join(root, "dags"), today: today,
		open: map[string]*jsondb.JSONDB{}, openDag: map[string]string{}}
	_ = os.MkdirAll(w.data, 0o755)
	_ = os.MkdirAll(w.dags, 0o755)
	w.main = jsondb.New(w.data, true)
	w.warmT = jsondb.New(w.data, true)
	w.warmF = jsondb.New(w.data, false)
	return w
}

func (w *World) path(d string) string { return filepath.Join(w.dags, d) }

// end releases everything (file descriptors of open writers, eviction goroutines, files).
func (w *World) end() {
	for _, s := range w.open {
		func() {
			defer func() { _ = recover() }()
			_ = s.Close()
		}()
		s.VerifC06Stop()
	}
	w.main.VerifC06Stop()
	w.warmT.VerifC06Stop()
	w.warmF.VerifC06Stop()
	_ = os.RemoveAll(w.root)
}

// setMtime gives the files of run (d, t, id) the run's nominal start time as
// mtime, so that retention by age is deterministic.  The files are found by
// walking the data directory, not through the store's own glob.
func (w *World) setMtime(d string, t time.Time, id string) {
	prefix := strings.TrimSuffix(d, filepath.Ext(d))
	marker := "." + t.Format("20060102.15:04:05.000") + "." + trunc8(id)
	dirs, _ := os.ReadDir(w.data)
	for _, de := range dirs {
		n := de.Name()
		if !de.IsDir() || !strings.HasPrefix(n, prefix+"-") || len(n) != len(prefix)+1+32 {
			continue
		}
		files, _ := os.ReadDir(filepath.Join(w.data, n))
		for _, f := range files {
			if strings.HasPrefix(f.Name(), prefix+marker) {
				_ = os.Chtimes(filepath.Join(w.data, n, f.Name()), t, t)
			}
		}
	}
}

type panicErr struct{ v any }

func (p panicErr) Error() string { return fmt.Sprintf("panic: %v", p.v) }

// apply performs one operation on the real store. m is the model state BEFORE the operation.
func (w *World) apply(o Op, m *Model) (err error) {
	defer func() {
		if r := recover(); r != nil {
			err = panicErr{r}
		}
		if err != nil {
			w.opErrs = append(w.opErrs, fmt.Sprintf("%s: %v", o, err))
		}
	}()
	switch o.K {
	case "run":
		t := times[timeIndex(o.T)].At(w.today)
		if err = w.main.Open(w.path(o.D), t, o.R); err != nil {
			return err
		}
		if err = w.main.Write(mkStatus(o.R, withSize("done", o.Size))); err != nil {
			return err
		}
		err = w.main.Close()
		w.setMtime(o.D, t, o.R)
		return err
	case "open":
		t := times[timeIndex(o.T)].At(w.today)
		s := jsondb.New(w.data, true) // its own store instance, as the agent process of that run has
		w.open[o.R], w.openDag[o.R] = s, o.D
		if err = s.Open(w.path(o.D), t, o.R); err != nil {
			return err
		}
		err = s.Write(mkStatus(o.R, withSize("run-A", o.Size)))
		w.setMtime(o.D, t, o.R)
		return err
	case "write", "close":
		d, r := m.findAny(o.R)
		s := w.open[o.R]
		if o.K == "write" {
			err = s.Write(mkStatus(o.R, toggle(r.Last, "run-A", "run-B", o.Size)))
		} else {
			err = s.Close()
			s.VerifC06Stop()
			delete(w.open, o.R)
		}
		w.setMtime(d, times[r.T].At(w.today), o.R)
		return err
	case "update":
		r := m.find(o.D, o.R)
		return w.main.Update(w.path(o.D), o.R, mkStatus(o.R, toggle(r.Last, "upd-A", "upd-B", o.Size)))
	case "rename":
		return w.main.Rename(w.path(o.D), w.path(o.To))
	case "removeold":
		return w.main.RemoveOld(w.path(o.D), o.Days)
	case "removeall":
		return w.main.RemoveAll(w.path(o.D))
	}
	return fmt.Errorf("unknown op %q", o.K)
}

// dropRemoved forgets the writers of runs that no longer exist in the model
// (their file was removed by retention / deletion; writing on is outside the alphabet).
func (w *World) dropRemoved(m *Model) {
	for id, s := range w.open {
		if _, r := m.findAny(id); r == nil {
			func() {
				defer func() { _ = recover() }()
				_ = s.Close()
			}()
			s.VerifC06Stop()
			delete(w.open, id)
		}
	}
}

// Got is the answer of one store instance to one query.
type Got struct {
	Items []Item
	Err   string
	Panic string
}

func ask(s *jsondb.JSONDB, path string, q Query) (g Got) {
	defer func() {
		if r := recover(); r != nil {
			g = Got{Panic: fmt.Sprint(r)}
		}
	}()
	switch q.Kind {
	case "find":
		sf, err := s.FindByRequestID(path, q.ID)
		if err != nil {
			return Got{Err: err.Error()}
		}
		if sf == nil || sf.Status == nil {
			return Got{Err: "nil result without error"}
		}
		return Got{Items: []Item{{sf.Status.RequestID, payloadOf(sf.Status)}}}
	case "latest":
		st, err := s.ReadStatusToday(path)
		if err != nil {
			return Got{Err: err.Error()}
		}
		if st == nil {
			return Got{Err: "nil result without error"}
		}
		return Got{Items: []Item{{st.RequestID, payloadOf(st)}}}
	case "recent":
		var it []Item
		for _, sf := range s.ReadStatusRecent(path, q.N) {
			if sf == nil || sf.Status == nil {
				it = append(it, Item{"?nil", "?nil"})
				continue
			}
			it = append(it, Item{sf.Status.RequestID, payloadOf(sf.Status)})
		}
		return Got{Items: it}
	}
	return Got{Err: "unknown query"}
}

// observers for a query: name -> instance. cold=true adds fresh instances.
type observer struct {
	name string
	s    *jsondb.JSONDB
}

func (w *World) observers(q Query, coldT, coldF *jsondb.JSONDB) []observer {
	if q.Kind == "latest" && !q.Today {
		obs := []observer{{"warm", w.warmF}}
		if coldF != nil {
			obs = append(obs, observer{"cold", coldF})
		}
		return obs
	}
	obs := []observer{{"writer", w.main}, {"warm", w.warmT}}
	if coldT != nil {
		obs = append(obs, observer{"cold", coldT})
	}
	return obs
}

// Answer: all observers' answers to one query.
type Answer struct {
	Q    Query
	Want []Item
	Got  map[string]Got // by observer name
	Obs  []string       // observer order
}

// observe takes every observation for model state m. withCold: also through fresh instances.
func (w *World) observe(m *Model, withCold bool) []Answer {
	var coldT, coldF *jsondb.JSONDB
	if withCold {
		coldT, coldF = jsondb.New(w.data, true), jsondb.New(w.data, false)
		defer coldT.VerifC06Stop()
		defer coldF.VerifC06Stop()
	}
	qs := m.queries()
	out := make([]Answer, 0, len(qs))
	for _, q := range qs {
		a := Answer{Q: q, Want: m.expect(q, nil), Got: map[string]Got{}}
		for _, ob := range w.observers(q, coldT, coldF) {
			a.Got[ob.name] = ask(ob.s, w.path(q.Dag), q)
			a.Obs = append(a.Obs, ob.name)
		}
		out = append(out, a)
	}
	return out
}
