// C06 — history queries return exactly what was recorded, per DAG.
//
// Breadth-first explicit-state search over operation sequences on the real
// jsondb history store.  A state is the shortest operation history reaching
// it; a successor is executed by replaying that history on a FRESH store in a
// fresh directory plus one more operation; states are deduplicated on a
// canonical hash of the reference model (model.go).  After every transition
// every observation the property names is taken from the real store — through
// the long-lived writing instance, through a fresh jsondb.New (cold cache) and
// through long-lived reader instances (warm cache) — and compared with the
// model.
//
// Sharding: the model is cheap, so every shard walks the whole model-level
// search (identical sequence in all shards) and executes on the real store
// only the transitions dealt to it (fl.Mine).  State counts are reported by
// shard 0 only, so that the orchestrator's sums are exact.
package main

import (
	"encoding/json"
	"fmt"
	"io"
	"log"
	"os"
	"path/filepath"
	"sort"
	"strings"
	"time"

	"github.com/ErdemOzgen/blackdagger/internal/zzverif/vlib"
)

type checker struct {
	res        *vlib.Result
	fl         *vlib.Flags
	today, now time.Time
	seq        int
	k          int // transition counter (identical in every shard)
	dayChanged bool
	verbose    io.Writer // replay: print model vs observed
	maxDepth   int
	dry        bool   // VERIF_C06_DRY=1: model-level search only (sizing of the alphabets)
	vtrace     string // ptrace supervisor (interleaving family)
	self       string // this binary (reader child role)
}

type vio struct {
	sig, detail string
}

// wrongOf: observers whose answer differs from want.
func wrongOf(a Answer) (wrong []string, panicked bool) {
	for _, ob := range a.Obs {
		g := a.Got[ob]
		if g.Panic != "" {
			wrong = append(wrong, ob)
			panicked = true
			continue
		}
		if !equalItems(g.Items, a.Want) {
			wrong = append(wrong, ob)
		}
	}
	return
}

func gotString(g Got) string {
	if g.Panic != "" {
		return "PANIC " + g.Panic
	}
	if len(g.Items) == 0 {
		return "<none> (" + g.Err + ")"
	}
	return itemsString(g.Items)
}

// execute replays ops on a fresh store and returns the violations introduced
// by the LAST operation: wrong answers about a DAG file whose answers were all
// right after the previous step.  (A DAG whose answers already disagreed —
// "diverged" — was reported by the transition that made it diverge, i.e. by a
// prefix of this history; rename carries divergence to the new name.)
func (c *checker) execute(s *Search, ops []Op) (vios []vio, nAnswers int, agreed bool) {
	c.seq++
	w := newWorld(filepath.Join(c.fl.Work, fmt.Sprintf("t%d", c.seq)), c.today)
	defer w.end()
	m := newModel(s.Dags)
	diverged := map[string]bool{}
	agreed = true
	for i, op := range ops {
		last := i == len(ops)-1
		if !m.enabled(op, nil) {
			vios = append(vios, vio{"C06/harness/op-not-enabled", fmt.Sprintf("operation %s is not enabled in model state %s", op, m)})
			return vios, 0, false
		}
		opErr := w.apply(op, m)
		m2 := m.apply(op, c.today, c.now)
		w.dropRemoved(m2)
		if op.K == "rename" && diverged[op.D] {
			diverged[op.To] = true
		}
		if c.verbose != nil {
			fmt.Fprintf(c.verbose, "\n== step %d: %s   (returned: %v)\n   model: %s\n", i+1, op, opErr, m2)
		}
		if pe, ok := opErr.(panicErr); ok && last {
			vios = append(vios, vio{"C06/panic/op-" + op.K, fmt.Sprintf("ops: %s; the last operation panicked: %v", opsString(ops), pe.v)})
		}
		ans := w.observe(m2, i >= len(ops)-2)
		now := map[string]bool{}
		seenSig := map[string]bool{}
		for _, a := range ans {
			wrong, panicked := wrongOf(a)
			if c.verbose != nil {
				mark := "ok "
				if len(wrong) > 0 {
					mark = "BAD"
					if diverged[a.Q.Dag] {
						mark = "bad" // this DAG's answers already disagreed after the previous step
					}
				}
				var gs []string
				for _, ob := range a.Obs {
					gs = append(gs, ob+": "+gotString(a.Got[ob]))
				}
				fmt.Fprintf(c.verbose, "   %s %-70s want %-40s got %s\n", mark, a.Q, itemsString(a.Want), strings.Join(gs, " | "))
			}
			if last {
				nAnswers += len(a.Obs)
			}
			if len(wrong) == 0 {
				continue
			}
			now[a.Q.Dag] = true
			if last {
				agreed = false
			}
			if !last || diverged[a.Q.Dag] {
				continue
			}
			g := a.Got[wrong[0]]
			sig := classify(a.Q, a.Want, g.Items, panicked, wrong, a.Obs, m, m2, op, ans)
			if s.IDs != "" && (op.K == "update" || op.K == "write" || op.K == "close") {
				// searches over related request ids, operations on a run already on record: how the id the
				// operation addressed relates to the other ids of its DAG
				if dg, _ := m2.findAny(op.R); dg != "" {
					sig += "/addressed-id=" + idRelation(op.R, m2.Runs[dg])
				}
			}
			if seenSig[sig] {
				c.res.Count("vio-more:"+sig, 1)
				continue
			}
			seenSig[sig] = true
			var gs []string
			for _, ob := range a.Obs {
				gs = append(gs, ob+" instance: "+gotString(a.Got[ob]))
			}
			det := fmt.Sprintf("after [%s] %s must return %s but returned: %s. Model state: %s.", opsString(ops), a.Q, itemsString(a.Want), strings.Join(gs, "; "), m2)
			if len(w.opErrs) > 0 {
				det += " Errors returned by operations: " + strings.Join(w.opErrs, "; ")
			}
			vios = append(vios, vio{sig, det})
		}
		diverged, m = now, m2
	}
	if d := time.Now().UTC(); d.YearDay() != c.today.YearDay() {
		c.dayChanged = true
	}
	return vios, nAnswers, agreed
}

func sigSet(v []vio) string {
	var s []string
	for _, x := range v {
		s = append(s, x.sig)
	}
	sort.Strings(s)
	return strings.Join(s, ",")
}

// transition executes one member (history + one operation) and reports.
func (c *checker) transition(s *Search, ops []Op) {
	res := c.res
	vios, n, agreed := c.execute(s, ops)
	res.Evaluations++
	res.Transitions++
	res.Count("observations_compared", int64(n))
	res.Count("operations_applied_incl_replay_of_history", int64(len(ops)))
	res.Count("transitions:"+s.Name, 1)
	if agreed {
		res.Validated++
	}
	if len(vios) == 0 {
		return
	}
	// a counterexample is re-run before it is believed
	again, _, _ := c.execute(s, ops)
	if sigSet(again) != sigSet(vios) {
		res.CheckError("non-deterministic outcome for [%s] in search %s: first %s, then %s", opsString(ops), s.Name, sigSet(vios), sigSet(again))
		return
	}
	for _, v := range vios {
		res.Violate(v.sig, v.detail, map[string]any{"search": s.Name, "dags": s.Dags, "ops": ops})
	}
}

type node struct {
	hist []uint16
}

// search: BFS over the model; real execution of the transitions dealt to this shard.
func (c *checker) search(s *Search) {
	uni := s.universe()
	if len(uni) >= 1<<16 {
		c.res.CheckError("alphabet of %s too large", s.Name)
		return
	}
	build := func(h []uint16) (*Model, []Op) {
		m := newModel(s.Dags)
		ops := make([]Op, len(h))
		for i, x := range h {
			ops[i] = uni[x]
			m = m.apply(uni[x], c.today, c.now)
		}
		return m, ops
	}
	seen := map[uint64]struct{}{newModel(s.Dags).hash(): {}}
	frontier := []node{{}}
	states := int64(1)
	for depth := 1; depth <= s.Depth && len(frontier) > 0; depth++ {
		var next []node
		for _, nd := range frontier {
			m, ops := build(nd.hist)
			for oi, op := range uni {
				if !m.enabled(op, s) {
					continue
				}
				c.k++
				m2 := m.apply(op, c.today, c.now)
				if c.dry {
					c.res.Count("dry-transitions:"+s.Name, 1)
				} else if c.fl.Mine(c.k) && !c.dayChanged {
					full := append(append([]Op(nil), ops...), op)
					c.transition(s, full)
					if c.k%1009 == 0 || (c.k < 400 && c.k%97 == 0) {
						c.res.Sample(map[string]any{"search": s.Name, "ops": opsString(full), "model_state_after": m2.String()})
					}
				}
				h := m2.hash()
				if _, ok := seen[h]; ok {
					continue
				}
				seen[h] = struct{}{}
				states++
				if depth > c.maxDepth {
					c.maxDepth = depth
				}
				if c.fl.Shard == 0 {
					c.res.Nontrivial(fmt.Sprintf("%s/%016x", s.Name, h))
				}
				if depth < s.Depth {
					next = append(next, node{hist: append(append([]uint16(nil), nd.hist...), uint16(oi))})
				}
			}
		}
		frontier = next
	}
	if c.fl.Shard == 0 {
		c.res.States += states
		c.res.Count("states:"+s.Name, states)
	}
}

// ---- the searches ---------------------------------------------------------

func searches(thorough bool) []*Search {
	var out []*Search
	add := func(name string, dags []string, ts []int, kinds string, days []int, depth, maxRuns, maxOpen int) {
		out = append(out, &Search{Name: name, Dags: dags, Times: ts, Kinds: kinds, Days: days, Depth: depth, MaxRuns: maxRuns, MaxOpen: maxOpen})
	}
	all := []int{tT0, tT1, tT2, tT3, tY, tOld}
	d := func(q, t int) int {
		if thorough {
			return t
		}
		return q
	}
	// (1) ordering of runs of one DAG: every start time, complete and open runs, writes, updates
	add("order/a", []string{"a.yaml"}, all, "run open update", nil, d(4, 6), 4, 2)
	add("order/a+ab", []string{"a.yaml", "ab.yaml"}, []int{tT0, tT1, tT3, tY}, "run open update rename", nil, d(4, 5), 4, 1)
	// (2) retention and deletion next to a DAG sharing the prefix / carrying the compaction suffix
	add("retention/a+a_c", []string{"a.yaml", "a_c.yaml"}, []int{tT0, tY, tOld}, "run open update removeold removeall", []int{0, 1, 30}, d(4, 5), 4, 1)
	add("retention/a+ab+rename", []string{"a.yaml", "ab.yaml"}, []int{tT3, tOld}, "run update rename removeold removeall", []int{0, 1, 30}, d(4, 6), 4, 0)
	// (2b) retention against runs of several ages, some of them rewritten (Update) after their start:
	//      the order of start times (file names) and the order of last writes (what retention looks at) disagree
	add("retention/ages", []string{"a.yaml"}, []int{tOld2, tOld, tMid, tT0}, "run update removeold", []int{0, 7, 30}, d(4, 5), 4, 0)
	// (2c) status payloads of about 1 KiB and 70 KiB (one status = one line of the history file)
	add("payload/a", []string{"a.yaml"}, []int{tT0, tT3}, "run open update", nil, d(4, 5), 2, 1)
	out[len(out)-1].Sizes = []string{"", "1k", "70k"}
	// (2d) request ids related through the 8 characters the store puts into the file name: full-length ids sharing
	//      them, one differing there, an id of exactly 8 characters, ids of 4 and 6 characters that are prefixes of
	//      the others; runs started at different times, every one of them updated / written on
	add("ids/a", []string{"a.yaml"}, all, "run open update", nil, d(4, 5), d(3, 4), 1)
	out[len(out)-1].IDs = "mixed"
	// (2e) DAG names made of the store's own file-name fragments (.dat, _c next to it, .yaml in the middle, a whole
	//      timestamped history-file stem), each next to the plain name: complete runs (Close compacts), open runs,
	//      updates, renames in both directions, retention, deletion
	for _, n := range []string{"x.dat.yaml", "sales.data.yaml", "a.dat_c.yaml", "a_c.dat.yaml", ".dat.yaml", "a.yaml.b.yaml", "a.20240101.10:00:00.000.abcdef12.yaml"} {
		add("extname/"+n, []string{n, "a.yaml"}, []int{tT0, tOld}, "run open update rename removeold removeall", []int{0, 30}, d(3, 4), 3, 1)
	}
	// (3) every collision-prone pair: rename / retention / deletion across names
	pairs := [][]string{
		{"a.yaml", "ab.yaml"}, {"a.yaml", "a_c.yaml"}, {"a.yaml", "a.b.yaml"}, {"a.yaml", "a b.yaml"},
		{"a.yaml", "a*.yaml"}, {"a.yaml", "a?.yaml"}, {"a.yaml", "a[1].yaml"},
		{"ab.yaml", "a*.yaml"}, {"ab.yaml", "a?.yaml"}, {"a_c.yaml", "a*.yaml"}, {"a.b.yaml", "a?.yaml"},
		{"a b.yaml", "a?.yaml"}, {"a*.yaml", "a?.yaml"}, {"a[1].yaml", "a*.yaml"}, {"a.b.yaml", "a_c.yaml"},
	}
	for _, p := range pairs {
		pt := []int{tT0, tOld}
		if thorough {
			pt = []int{tT0, tY, tOld}
		}
		add("pair/"+p[0]+"+"+p[1], p, pt, "run open update rename removeold removeall", []int{0, 30}, d(4, 5), d(3, 4), 1)
	}
	// (4) triples over the tiers (plain / separator / shared prefix / glob metacharacter)
	triples := [][]string{
		{"a.yaml", "ab.yaml", "a*.yaml"}, {"a.yaml", "a_c.yaml", "a?.yaml"}, {"a.yaml", "a.b.yaml", "a b.yaml"},
		{"a.yaml", "ab.yaml", "a[1].yaml"}, {"a.b.yaml", "a?.yaml", "a*.yaml"}, {"a b.yaml", "a_c.yaml", "ab.yaml"},
	}
	for _, p := range triples {
		add("triple/"+strings.Join(p, "+"), p, []int{tT0, tOld}, "run update rename removeold removeall", []int{0, 30}, d(3, 5), d(3, 4), 0)
	}
	return out
}

func findSearch(name string, dags []string) *Search {
	for _, t := range []bool{true, false} {
		for _, s := range searches(t) {
			if s.Name == name {
				return s
			}
		}
	}
	return &Search{Name: name, Dags: dags}
}

func main() {
	log.SetOutput(io.Discard) // the store logs through the standard logger
	time.Local = time.UTC
	if p := os.Getenv("C06_READER"); p != "" {
		readerMain(p) // child role of the interleaving family
		return
	}
	fl := vlib.ParseFlags()
	res := vlib.New("c06")
	c := &checker{res: res, fl: fl}

	// "today" is computed once; the run must not straddle UTC midnight, and the
	// nominal start times of today (00:00:00 .. 00:00:01) must lie in the past.
	margin := 4 * time.Minute
	if fl.Thorough() {
		margin = 40 * time.Minute
	}
	for {
		now := time.Now().UTC()
		midnight := time.Date(now.Year(), now.Month(), now.Day(), 0, 0, 0, 0, time.UTC)
		if fl.Replay == "" && midnight.Add(24*time.Hour).Sub(now) < margin {
			time.Sleep(midnight.Add(24*time.Hour).Sub(now) + 10*time.Second)
			continue
		}
		if now.Sub(midnight) < 10*time.Second {
			time.Sleep(10 * time.Second)
			continue
		}
		c.now, c.today = now, midnight
		break
	}

	if fl.Replay != "" {
		var rp struct {
			Replay struct {
				Search      string    `json:"search"`
				Dags        []string  `json:"dags"`
				Ops         []Op      `json:"ops"`
				Interleaved *ilReplay `json:"interleaved"`
			} `json:"replay"`
		}
		b, err := os.ReadFile(fl.Replay)
		if err == nil {
			err = json.Unmarshal(b, &rp)
		}
		if err == nil && rp.Replay.Interleaved != nil {
			c.verbose = os.Stdout
			c.ilReplayRun(*rp.Replay.Interleaved)
			res.Transitions, res.States = 1, 1
			res.Sample(rp.Replay.Interleaved.Group.String())
			for _, v := range res.Violations {
				fmt.Printf("\nVIOLATION %s\n  %s\n", v.Signature, v.Detail)
			}
			if len(res.Violations) == 0 {
				fmt.Println("\nno violation")
			}
			res.Write(fl.Out)
			os.RemoveAll(fl.Work)
			return
		}
		if err != nil || len(rp.Replay.Ops) == 0 {
			fmt.Fprintln(os.Stderr, "replay: cannot read operation list:", err)
			os.Exit(2)
		}
		s := findSearch(rp.Replay.Search, rp.Replay.Dags)
		s.Dags = rp.Replay.Dags
		c.verbose = os.Stdout
		fmt.Printf("replaying [%s] on DAG files %q (today = %s)\n", opsString(rp.Replay.Ops), s.Dags, c.today.Format("2006-01-02"))
		vios, _, _ := c.execute(s, rp.Replay.Ops)
		res.Evaluations, res.Transitions, res.States = 1, 1, 1
		res.Sample(opsString(rp.Replay.Ops))
		for _, v := range vios {
			fmt.Printf("\nVIOLATION %s\n  %s\n", v.sig, v.detail)
			res.Violate(v.sig, v.detail, map[string]any{"search": s.Name, "dags": s.Dags, "ops": rp.Replay.Ops})
		}
		if len(vios) == 0 {
			fmt.Println("\nno new disagreement after the last operation")
		}
		res.Write(fl.Out)
		os.RemoveAll(fl.Work)
		return
	}

	ss := searches(fl.Thorough())
	c.dry = os.Getenv("VERIF_C06_DRY") != ""
	maxDepth, maxRuns := 0, 0
	if !c.dry {
		c.interleavings() // one preemption of a reader inside a cached query (vtrace); groups dealt to shards
	}
	for _, s := range ss {
		if c.dayChanged || os.Getenv("VERIF_C06_ONLY") == "interleaved" {
			break
		}
		if only := os.Getenv("VERIF_C06_ONLY"); only != "" && !strings.HasPrefix(s.Name, only) {
			continue // development aid: only the searches whose name starts with this
		}
		c.search(s)
		if s.Depth > maxDepth {
			maxDepth = s.Depth
		}
		if s.MaxRuns > maxRuns {
			maxRuns = s.MaxRuns
		}
	}
	if c.dry {
		var keys []string
		for k := range res.Counters {
			keys = append(keys, k)
		}
		sort.Strings(keys)
		for _, k := range keys {
			fmt.Fprintf(os.Stderr, "%-60s %d\n", k, res.Counters[k])
		}
		fmt.Fprintf(os.Stderr, "total transitions %d states %d\n", c.k, res.States)
	}
	if c.dayChanged {
		res.CheckError("the run straddled UTC midnight; start it again")
	}
	res.Bounds["max_depth"] = maxDepth
	res.Bounds["max_depth_reached_with_new_state"] = c.maxDepth
	res.Bounds["searches"] = len(ss)
	res.Bounds["dag_files_per_search_max"] = 3
	res.Bounds["runs_per_history_max"] = maxRuns
	res.Bounds["open_runs_at_once_max"] = 2
	res.Bounds["retention_days"] = []int{0, 1, 30}
	res.Bounds["recent_n"] = []int{1, 2, recentAll}
	res.Bounds["transitions_total_all_shards"] = c.k - len(ilGroups())
	res.Bounds["interleaved_groups"] = len(ilGroups())
	res.Bounds["interleaved_preemptions_of_the_reader"] = 1
	res.Rule = "interleaving family: member = (cache state cold|warm|stale, query ReadStatusRecent(1)|ReadStatusToday, writer Update|Write|Write+Close, K) = one preemption of the reading process at the entry of every relevant system call K (open/close/stat family under the installation) of its query, the write completed in the gap; distinct = (group, call class, occurrence). Search: member = operation history (shortest one per model state) + one enabled operation, executed on a fresh real jsondb store; distinct = distinct canonical reference-model state (runs per DAG with start time, request id, last status, open/closed, mtime class; start times used per DAG name); every state other than the empty one is non-trivial"
	res.Assume("two runs of one DAG never start within the same millisecond (the file name cannot tell them apart); a start time is not reused under a DAG name after its run was removed")
	res.Assume("a run left open is written through its own store instance (as the agent process of that run does); Update is only applied to closed runs (the client refuses it for a running one); after retention/deletion removed an open run's file its writer is not used again")
	res.Assume("file mtimes are set to the run's nominal start time after Open/Write/Close (os.Chtimes), Update leaves mtime = now; today's nominal times lie in the past and the check does not run across UTC midnight")
	res.Write(fl.Out)
	os.RemoveAll(fl.Work)
}
