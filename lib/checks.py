"""Table of checks: property id -> level, harnesses, static texts.
One file per property under lib/checks.d/<ID>.py defining CHECK (dict) and TEXT (dict)."""
import glob, os, runpy

def H(pkg, sub="", libs=(), **kw):
    d = {"pkg": pkg, "sub": sub, "libs": ["vlib", "vexec", "venv"] + list(libs)}
    d.update(kw)
    return d

CHECKS, TEXT = {}, {}
for _f in sorted(glob.glob(os.path.join(os.path.dirname(os.path.abspath(__file__)), "checks.d", "C*.py"))):
    _ns = runpy.run_path(_f, {"H": H})
    _id = os.path.basename(_f)[:-3]
    CHECKS[_id] = _ns["CHECK"]
    TEXT[_id] = _ns["TEXT"]
