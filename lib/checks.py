"""Table of checks: property id -> level, harnesses, static texts."""

def H(pkg, sub="", libs=(), **kw):
    d = {"pkg": pkg, "sub": sub, "libs": ["vlib", "vexec", "venv"] + list(libs)}
    d.update(kw)
    return d

CHECKS = {}

CHECKS["C14"] = {
    "level": "exploration",
    "technique": "bounded-exhaustive enumeration of dependency graphs against the real NewExecutionGraph / agent.Run, reference DFS oracle",
    "rule": "all digraphs with self-loops on <=4 steps (all listing orders for <=3), all 2^20 loop-free edge sets on 5 steps, dangling name at every position, structured families (chain/ring+tail/two rings/layered + every back edge) up to 40 steps",
    "harnesses": [H("c14", shards={"quick": "ncpu", "thorough": "ncpu"})],
    "assumptions": ["the scripted executor (executor.Register(\"verif\")) stands for child processes in the agent.Run part"],
}
