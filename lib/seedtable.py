#!/usr/bin/env python3
"""Prints the markdown table of seeded changes (DESIGN.md §9.7) from seeded/*/meta.json + the one-line summaries below."""
import glob, json, os
V = os.path.dirname(os.path.dirname(os.path.abspath(__file__)))
WHAT = {
 "C01": "isReady assigns `ready` from continueOn instead of only lowering it: a tolerated dependency listed after a still-running one re-enables the step (needs >= 2 dependencies in that order)",
 "C01-2": "Node.finish() flips a still-running node to finished: the stale worker of a retried step marks the relaunched attempt done (needs the agent's blocking done channel + relaunch before the old worker exits)",
 "C02": "same assignment in isReady: a step downstream of a failed dependency runs when a tolerated dependency is listed after it",
 "C02-2": "main loop ends when a scan started nothing and nothing runs: with bottom-up declared steps a blocked tail stays `not started`",
 "C03": "teardown also calls the node's cancelFunc: the stale worker of a retried step kills the relaunched attempt",
 "C03-2": "teardown calls and clears cancelFunc (variant): same hand-off window, relaunched attempt killed",
 "C04": "Signal marks the run canceled only if a step is running at that instant: a stop between two steps is dropped",
 "C04-2": "a retried step resets the scheduler's shared lastError: another step's failure is forgotten, run reported finished",
 "C05": "worker loop guard tests the node's status instead of the stop flag: a repeating step runs one more iteration after a stop between iterations",
 "C05-2": "cmd.Cancel sends SIGTERM (no WaitDelay) when the context ends: a DAG timeout no longer kills a TERM-ignoring step",
 "C06": "history directory name sanitised in prefixWithDirectory but not in Rename: runs of a DAG named with blanks/`*` are orphaned by a rename",
 "C06-2": "RemoveOld binary-searches the name-sorted files assuming last-write order: a run updated today is removed with its expired neighbours",
 "C07": "ParseFile decodes only the last line: a torn last record hides every acknowledged status of the run",
 "C07-2": "Compact encodes into the writer without flushing: the copy is written after the original is unlinked",
 "C08": "CorrectRunningStatus moved into a loader that shares its cache with the history reader (2 sites): a killed run stays `running` for a long-lived process that had read the history",
 "C08-2": "socket server shut down before the final status is written: a finishing successful run is reported failed",
 "C09": "job guard drops the Equal half: a minute is started twice after a daemon restart when the previous run started at second :00",
 "C09-2": "watcher `continue`s with the DAG table's lock held after a load error: the next tick blocks forever",
 "C10": "setupRetry enqueues each node once: a retry mark arriving over a longer path is lost, a downstream finished step is not re-executed",
 "C10-2": "running->failed conversion moved to the agent and guarded by the run-level status (2 sites): a recorded running step of a run marked failed/canceled wedges the retry",
 "C11": "retry restores recorded outputs with strings.Split(v,\"=\")[1]: values containing `=` are cut",
 "C11-2": "quoteParam's NAME test replaced by an unanchored regexp: a quoted positional value with a blank before `=` is recorded as a named parameter",
 "C12": "stderr no longer follows stdout into the MultiWriters: two os/exec copy goroutines share one bufio.Writer",
 "C12-2": "stdout tee cached across attempts: a retried step writes into the first attempt's closed writers",
 "C13": "convertMap turned from queue to stack with a misplaced pop: a nested map of an executor config stays unconverted",
 "C13-2": "nil check for `functions` entries removed from assertStepDef (2 hunks): a null entry before a called function panics in parseFuncCall",
 "C14": "hasCycle counts pending nodes instead of scanning in-degrees: a cycle is admitted when there are at least as many roots as stuck steps",
 "C14-2": "addEdge de-duplicates only the upstream list: a repeated depends entry cancels an edge of a cycle",
 "C15": "retried nodes exempted from the maxActiveRuns check",
 "C15-2": "worker's deferred clean-up marks a still-running node failed: the stale worker of a retried step uncounts the relaunched attempt",
 "C16": "GET /status no longer forces `running`: between listen and graph start the endpoint answers `none`, a second start is admitted",
 "C16-2": "socket file removal moved into Shutdown + socket set up before the running check (2 sites): a refused start unlinks the active run's socket",
 "C17": "unknown user with empty password passes BasicAuth (missing map-lookup check)",
 "C17-2": "TokenAuth installed only for a non-empty token while BasicAuth still steps aside for any Bearer header",
 "C18": "history Rename uses strings.ReplaceAll: the old name is replaced everywhere in the history file names",
 "C18-2": "rename's exists-guard compares paths case-insensitively: renaming onto a name differing only in case overwrites it",
 "C19": "operator precedence in parseParamValue: a double-quoted parameter value's backticks run under noEval",
 "C19-2": "the daemon's hot reload uses the evaluating loader",
 "C20": "status-edit running guard tests the addressed run instead of the DAG's live status",
 "C20-2": "client.Start quotes the API's params with strconv.Quote",
}
print("| seed | change (what it needs to manifest: see seeded/<seed>/NOTES.md) | suite passes | demo fails with / passes without | detected by (quick tier) | first signatures |")
print("|---|---|---|---|---|---|")
for d in sorted(glob.glob(os.path.join(V, "seeded", "*", "meta.json"))):
    n = os.path.basename(os.path.dirname(d)); m = json.load(open(d))
    det = ", ".join("%s: %s" % (c, "yes" if v["detected"] else "NO") for c, v in m["checks"].items())
    sig = "; ".join(sum((v["signatures"][:2] for v in m["checks"].values()), []))[:160]
    print("| %s | %s | %s | %s / %s | %s | %s |" % (n, WHAT.get(n, ""), "yes" if m["suite_passes_with_change"] else "re-run", "yes" if m["demo_fails_with_change"] else "NO", "yes" if m["demo_passes_without_change"] else "NO", det, sig))
