ENGINES = [
 {"name": "E1-coop", "path": "/verif/tools/vinstr + /verif/go/{vrt,vsync,vtime,vctx,vexec} + /verif/go/e1 (+ go_inpkg/e1, go/agentseq, go/c05real)",
  "serves_properties": ["C01", "C02", "C03", "C04", "C05", "C08", "C10", "C15"],
  "kind_free_text": "stateless model checker for the real scheduler/agent code: tools/vinstr rewrites sync/time/context/channel operations of scheduler.go, node.go, graph.go, agent.go (copies generated at check time from the working tree, compiled with go build -overlay) onto a cooperative token-passing runtime with a virtual clock; the explorer enumerates every choice sequence within a preemption bound PB(k) by prefix replay (DFS, level-1 subtree sharding across processes), child processes are the scripted executor go/vexec; a free-running twin of the same harness on un-instrumented packages (scripted executor and real sh) must end in an explored outcome (conformance)"},
 {"name": "E2-opseq", "path": "/verif/go/{c06,c18,c20} (+ go_inpkg/c06)",
  "serves_properties": ["C06", "C18", "C20"],
  "kind_free_text": "explicit-state breadth-first search over operation sequences: states are canonical forms of a boring reference model, every transition replays the shortest path on a fresh real instance (JSON history store / DAG store / web API handlers) plus one operation and compares every query with the model; C06 adds reader/writer interleavings with the reader held by vtrace at each of its system calls"},
 {"name": "E2-timestep", "path": "/verif/go/c09 + /verif/go_inpkg/c09 (in-package go test binary)",
  "serves_properties": ["C09"],
  "kind_free_text": "time-stepped exhaustive exploration of the real cron daemon (entry reader, watcher, tick loop) on an injected clock: every minute of calendar windows x every expression/form of the alphabet x restart/late-tick/guard families against a reference cron evaluator"},
 {"name": "E3-vtrace", "path": "/verif/c/vtrace.c + /verif/go/{c07,c08,c16}",
  "serves_properties": ["C07", "C08", "C16", "C06", "C18"],
  "kind_free_text": "ptrace supervisor for the real binary / real store processes: numbers the relevant system calls of a history, then for every K kills the process at call K (optionally tearing the write to M bytes) or parks it there while another process acts; recovery / observation is compared with the reference model of acknowledged operations"},
 {"name": "E4-enum", "path": "/verif/go/{c11,c12,c13,c14,c17,c19} (+ go_inpkg/c13, go_inpkg/c19)",
  "serves_properties": ["C11", "C12", "C13", "C14", "C17", "C19", "C10"],
  "kind_free_text": "bounded-exhaustive enumerators over finite input / program / configuration families (all digraphs to n=5, all documents over a byte alphabet to length 3 plus every single mutation of a maximal definition, the full header-grammar x path x method matrix, every string leaf x payload x entry point, ...), each member executed on the real code (real processes where the property is about processes)"},
]
NOT_APPLICABLE = []
