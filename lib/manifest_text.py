ENGINES = [
 {"name": "E4-enum", "path": "/verif/go/c14 (and siblings)", "serves_properties": ["C14"], "kind_free_text": "bounded-exhaustive enumerators over finite input/program/configuration families, executed on the real code"},
]
_PENDING = "check not built yet in this round (machinery under construction; see DESIGN.md build order) — not a claim that the technique cannot apply"
NOT_APPLICABLE = [{"property_id": "C%02d" % i, "reason": _PENDING} for i in range(1, 21)]
