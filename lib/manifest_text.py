ENGINES = [
 {"name": "E4-enum", "path": "/verif/go/c14 (and siblings)", "serves_properties": ["C14"], "kind_free_text": "bounded-exhaustive enumerators over finite input/program/configuration families, executed on the real code"},
]
_PENDING = "check not built yet in this round (machinery under construction; see DESIGN.md build order) — not a claim that the technique cannot apply"
NOT_APPLICABLE = [{"property_id": "C%02d" % i, "reason": _PENDING} for i in range(1, 21)]
TEXT = {
 "C14": {"engine": "E4-enum", "design_ref": "DESIGN.md §5 C14",
   "text": "Every dependency graph of the stated finite families (all digraphs incl. self-loops on <=4 steps, all 2^20 loop-free edge sets on 5, dangling names at every position, structured families to 40 steps) is run through the real admission code and compared with an independent DFS reference; refused graphs on <=3 steps also through the real agent.Run. Exhaustive inside those families, so any admission bug that has a witness there is found; it is exploration, not proof, for larger graphs.",
   "note": "Trusts the reference DFS in go/c14/main.go and the scripted executor as an observer of 'something executed'. Step names distinct."},
}
