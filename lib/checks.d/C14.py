CHECK = {
    "level": "exploration",
    "technique": "bounded-exhaustive enumeration of dependency graphs against the real NewExecutionGraph / agent.Run, reference DFS oracle",
    "rule": "all digraphs with self-loops on <=4 steps (all listing orders for <=3), all 2^20 loop-free edge sets on 5 steps, dangling name at every position, structured families (chain/ring+tail/two rings/layered + every back edge) up to 40 steps",
    "harnesses": [H("c14", shards={"quick": "ncpu", "thorough": "ncpu"})],
    "assumptions": ["the scripted executor (executor.Register(\"verif\")) stands for child processes in the agent.Run part"],
}
TEXT = {"engine": "E4-enum", "design_ref": "DESIGN.md §5 C14",
   "text": "Every dependency graph of the stated finite families (all digraphs incl. self-loops on <=4 steps, all 2^20 loop-free edge sets on 5, dangling names at every position, structured families to 40 steps) is run through the real admission code and compared with an independent DFS reference; refused graphs on <=3 steps also through the real agent.Run. Exhaustive inside those families, so any admission bug that has a witness there is found; it is exploration, not proof, for larger graphs.",
   "note": "Trusts the reference DFS in go/c14/main.go and the scripted executor as an observer of 'something executed'. Step names distinct."}
