_E1 = dict(libs=["vrt", "vsync", "vtime", "vctx"], gomaxprocs=1,
           instrument={"files": ["internal/dag/scheduler/scheduler.go", "internal/dag/scheduler/node.go", "internal/dag/scheduler/graph.go", "internal/agent/agent.go"]},
           inpkg={"internal/agent": ["e1/zz_verif_e1_agent.go"], "internal/dag/scheduler": ["e1/zz_verif_e1_sched.go"]},
           shards={"quick": "ncpu", "thorough": "ncpu"})
CHECK = {
    "level": "model_checking",
    "technique": "stateless model checking of the real step scheduler (machine-instrumented at check time) under a cooperative scheduler with virtual time: all non-preemptive schedules of every program of a finite family, preemption-bounded schedules of a sharp list",
    "rule": "",
    "harnesses": [H("e1", variant="free", build_only=True, libs=["vrt", "vsync", "vtime", "vctx"],
                    inpkg={"internal/agent": ["e1/zz_verif_e1_agent.go"], "internal/dag/scheduler": ["e1/zz_verif_e1_sched.go"]}),
                  H("e1", variant="free", race=True, build_only=True, tiers=["thorough"], libs=["vrt", "vsync", "vtime", "vctx"],
                    inpkg={"internal/agent": ["e1/zz_verif_e1_agent.go"], "internal/dag/scheduler": ["e1/zz_verif_e1_sched.go"]}),
                  H("e1", sub="C03", **_E1),
                  # the same oracles on free runs with real sh children through the real command executor, with the step
                  # attributes the scripted executor cannot carry (output capture, redirect files, script bodies)
                  H("e1", variant="free", sub="C03real", libs=["vrt", "vsync", "vtime", "vctx"], shards={"quick": "ncpu", "thorough": "ncpu"},
                    inpkg={"internal/agent": ["e1/zz_verif_e1_agent.go"], "internal/dag/scheduler": ["e1/zz_verif_e1_sched.go"]}),
                  H("agentseq", sub="C03dry", shards={"quick": "ncpu", "thorough": "ncpu"})],
    "assumptions": [],
}
TEXT = {"engine": "E1-coop", "design_ref": "DESIGN.md §3.1, §5 C03",
   "text": "Attempt counts, attempt overlap, recorded retry count and final state of every step are checked on the event trace of every explored execution (scripts 'fail the first k attempts' with k below, at and above the retry limit); dry-run is checked by running the real agent with Options{Dry:true} over the same program family.",
   "note": "Trusts the cooperative runtime (go/vrt), the rewriter (tools/vinstr) and the scripted executor as a model of child processes. Unsynchronised memory accesses are not scheduling points."}
