_E1 = dict(libs=["vrt", "vsync", "vtime", "vctx"], gomaxprocs=1,
           instrument={"files": ["internal/dag/scheduler/scheduler.go", "internal/dag/scheduler/node.go", "internal/dag/scheduler/graph.go", "internal/agent/agent.go"]},
           inpkg={"internal/agent": ["e1/zz_verif_e1_agent.go"], "internal/dag/scheduler": ["e1/zz_verif_e1_sched.go"]},
           shards={"quick": "ncpu", "thorough": "ncpu"})
CHECK = {
    "level": "model_checking",
    "technique": "stateless model checking of the real step scheduler (machine-instrumented at check time) under a cooperative scheduler with virtual time: all non-preemptive schedules of every program of a finite family, preemption-bounded schedules of a sharp list",
    "rule": "",
    "harnesses": [H("e1", sub="C05", **_E1),
                  H("c05real", shards={"quick": "ncpu", "thorough": "ncpu"}, inpkg={"internal/agent": ["e1/zz_verif_e1_agent.go"]})],
    "assumptions": [],
}
TEXT = {"engine": "E1-coop", "design_ref": "DESIGN.md §3.1, §5 C05",
   "text": 'A real agent.Agent (setup, scheduler, graph) runs small DAGs whose steps end by themselves, end only on a signal, or ignore SIGTERM, while a second thread issues the stop through the real /stop path (Agent.signal with its MaxCleanUpTime / 5 s / 3 s timer loop, on virtual time) or Agent.Signal, at every explored instant (non-preemptive, plus one preemption on three programs); every execution is checked for: no new step after acceptance, stop signal delivered to running steps, SIGKILL within the bound, termination (HANG detection), canceled outcome and handlers; DAG timeouts likewise.',
   "note": "Trusts the cooperative runtime (go/vrt), the rewriter (tools/vinstr) and the scripted executor as a model of child processes. Unsynchronised memory accesses are not scheduling points."}
