_E1 = dict(libs=["vrt", "vsync", "vtime", "vctx"], gomaxprocs=1,
           instrument={"files": ["internal/dag/scheduler/scheduler.go", "internal/dag/scheduler/node.go", "internal/dag/scheduler/graph.go", "internal/agent/agent.go"]},
           inpkg={"internal/agent": ["e1/zz_verif_e1_agent.go"], "internal/dag/scheduler": ["e1/zz_verif_e1_sched.go"]},
           shards={"quick": "ncpu", "thorough": "ncpu"})
CHECK = {
    "level": "model_checking",
    "technique": "stateless model checking of the real step scheduler (machine-instrumented at check time) under a cooperative scheduler with virtual time: all non-preemptive schedules of every program of a finite family, preemption-bounded schedules of a sharp list",
    "rule": "",
    "harnesses": [H("e1", variant="free", build_only=True, libs=["vrt", "vsync", "vtime", "vctx"],
                    inpkg={"internal/agent": ["e1/zz_verif_e1_agent.go"], "internal/dag/scheduler": ["e1/zz_verif_e1_sched.go"]}),
                  H("e1", sub="C01", **_E1),
                  # the same oracles on free runs with real sh children through the real command executor, with the step
                  # attributes the scripted executor cannot carry (output capture, redirect files, script bodies)
                  H("e1", variant="free", sub="C01real", libs=["vrt", "vsync", "vtime", "vctx"], shards={"quick": "ncpu", "thorough": "ncpu"},
                    inpkg={"internal/agent": ["e1/zz_verif_e1_agent.go"], "internal/dag/scheduler": ["e1/zz_verif_e1_sched.go"]})],
    "assumptions": [],
}
TEXT = {"engine": "E1-coop", "design_ref": "DESIGN.md §3.1, §5 C01",
   "text": "Every interleaving (non-preemptive: all orders of blocking segments, process completions and timer expiries; plus every placement of up to k context switches on a list of sharp programs) of the real Scheduler.Schedule is executed for every program of the stated finite family; the start/end event trace of each execution is checked against the dependency rule. This decides the property inside the bounds; it is not a proof for larger DAGs or more preemptions.",
   "note": "Trusts the cooperative runtime (go/vrt), the rewriter (tools/vinstr) and the scripted executor as a model of child processes. Unsynchronised memory accesses are not scheduling points."}
