_E1 = dict(libs=["vrt", "vsync", "vtime", "vctx"], gomaxprocs=1,
           instrument={"files": ["internal/dag/scheduler/scheduler.go", "internal/dag/scheduler/node.go", "internal/dag/scheduler/graph.go", "internal/agent/agent.go"]},
           inpkg={"internal/agent": ["e1/zz_verif_e1_agent.go"], "internal/dag/scheduler": ["e1/zz_verif_e1_sched.go"]},
           shards={"quick": "ncpu", "thorough": "ncpu"})
CHECK = {
    "level": "model_checking",
    "technique": "stateless model checking of the real step scheduler (machine-instrumented at check time) under a cooperative scheduler with virtual time: all non-preemptive schedules of every program of a finite family, preemption-bounded schedules of a sharp list",
    "rule": "",
    "harnesses": [H("e1", sub="C10", **_E1),
                  H("agentseq", sub="C10agent", shards={"quick": "ncpu", "thorough": "ncpu"}),
                  # "the retry uses the parameter values of the recorded run": the parameter family of go/c11 (real binary: start, then retry), retry-side verdicts only
                  H("c11", sub="C10params", shards={"quick": "ncpu", "thorough": "ncpu"})],
    "needs_binary": True,
    "today_dependent": True,
    "assumptions": [],
}
TEXT = {"engine": "E1-coop", "design_ref": "DESIGN.md §3.1, §5 C10",
   "text": "Every recorded per-step status vector that a finished, stopped or crashed run can leave behind (including 'running' left by a killed process) is turned into a retry through the real persisted form (model.Status JSON -> Node.ToNode -> NewExecutionGraphForRetry) and executed by the real scheduler under every non-preemptive schedule; the executed set, kept states, dependency order and termination (HANG detection, not a timeout) are checked on each execution.",
   "note": "Trusts the cooperative runtime (go/vrt), the rewriter (tools/vinstr) and the scripted executor as a model of child processes. Unsynchronised memory accesses are not scheduling points."}
