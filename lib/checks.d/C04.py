_E1 = dict(libs=["vrt", "vsync", "vtime", "vctx"], gomaxprocs=1,
           instrument={"files": ["internal/dag/scheduler/scheduler.go", "internal/dag/scheduler/node.go", "internal/dag/scheduler/graph.go", "internal/agent/agent.go"]},
           inpkg={"internal/agent": ["e1/zz_verif_e1_agent.go"], "internal/dag/scheduler": ["e1/zz_verif_e1_sched.go"]},
           shards={"quick": "ncpu", "thorough": "ncpu"})
CHECK = {
    "level": "model_checking",
    "technique": "stateless model checking of the real step scheduler (machine-instrumented at check time) under a cooperative scheduler with virtual time: all non-preemptive schedules of every program of a finite family, preemption-bounded schedules of a sharp list",
    "rule": "",
    "harnesses": [H("e1", sub="C04", **_E1),
                  H("agentseq", sub="C04pre", shards={"quick": "ncpu", "thorough": "ncpu"})],
    "assumptions": [],
}
TEXT = {"engine": "E1-coop", "design_ref": "DESIGN.md §3.1, §5 C04",
   "text": 'Scheduler status and handler events of every explored execution, over programs x handler subsets x {no stop, stop request arriving at every explored instant}, are compared with the outcome computed from the final step states.',
   "note": "Trusts the cooperative runtime (go/vrt), the rewriter (tools/vinstr) and the scripted executor as a model of child processes. Unsynchronised memory accesses are not scheduling points."}
