CHECK = {
    "level": "model_checking",
    "technique": "explicit-state breadth-first search over operation histories (create / save / rename / delete / list / record-a-run over 4 DAG names and 6 candidate texts); every edge executed on a fresh real client.Client + real stores + real API handler and the full observation vector compared with a reference model",
    "rule": "all histories of <=4 (quick) / <=6 (thorough) operations up to equality of the reference-model state; names {a, b, 'a b', ab}; texts {valid1, valid2 (same size), invalid YAML, step without command, empty, ~1 MiB valid}; create/rename/delete through client.Client and through the generated API operation handlers",
    "harnesses": [H("c18", shards={"quick": "ncpu", "thorough": "ncpu"}, gomaxprocs=2,
                    inpkg={"internal/persistence/jsondb": ["c18/zz_verif_c18_jsondb.go"],
                           "internal/persistence/local": ["c18/zz_verif_c18_local.go"]})],
    "assumptions": ["part (a) of C18 only: operation sequences issued by one client; the crash / torn-write part (b) is a separate fault-enumeration harness",
                    "the overlay files in packages jsondb and local only stop the cache-eviction goroutines of the per-member store objects; they do not touch behaviour"],
}
TEXT = {"engine": "E2-opseq", "design_ref": "DESIGN.md §3.2, §5 C18",
   "text": "Breadth-first search over histories of create / save / rename / delete / list / record-a-run on four DAG names (with shared prefixes) and six candidate texts. The frontier is computed on a reference model (name -> text, name -> recorded runs) that encodes exactly the sentences of the property; every edge (shortest history of a model state + one operation) is executed on a fresh real installation (client.Client, local DAG store, JSON history store, generated API handlers) and after it the definition file bytes, GetDAGSpec, the listing and the history (GetRecentHistory, GetStatusByRequestID for every recorded request id) of ALL names are compared with the model. A violation needs a witness of at most the stated history length over these names and texts.",
   "note": "Trusts the reference model in go/c18/model.go. Whether the empty text is a valid definition is not stated by the property; the model adopts what UpdateSpec does and demands consistency. Answers for operations on names that do not exist (save/rename/delete of a missing DAG, rename onto itself) may be either accept or refuse; only 'nothing changes' is demanded. Sequential operations only; crash atomicity of save is part (b)."}
