#!/usr/bin/env python3
"""Regenerates MANIFEST.json from lib/checks.py + lib/manifest_static.json."""
import json, os, sys
V = os.path.dirname(os.path.dirname(os.path.abspath(__file__)))
sys.path.insert(0, os.path.join(V, "lib"))
from checks import CHECKS, TEXT
from manifest_text import NOT_APPLICABLE, ENGINES
BASE = json.load(open("/root/.vp/BASELINE.json"))["cmd"] if os.path.exists("/root/.vp/BASELINE.json") else ""
m = {
 "version": 1,
 "setup_cmd": "cd /verif && bin/vcheck setup",
 "hooks": {"guard": "verif", "enable": "no source hooks: harnesses are compiled inside the repository module with `go build -overlay` (virtual packages under internal/zzverif, in-package files, machine-instrumented copies generated from the current working tree at check time); the build tag `verif` is reserved and unused",
           "baseline_off_cmd": BASE, "source_commits": [], "add_only": True},
 "engines": ENGINES,
 "checks": [],
 "notes": "See DESIGN.md. Every check: bin/vcheck <ID> --tier quick|thorough; exit 0 / exit 1 + VIOLATION line; KNOWN-FINDING lines come from known_findings.jsonl.",
 "not_applicable": NOT_APPLICABLE,
}
for pid in sorted(CHECKS):
    c = CHECKS[pid]
    t = TEXT[pid]
    m["checks"].append({
        "property_id": pid,
        "quick_cmd": "bin/vcheck %s --tier quick" % pid,
        "thorough_cmd": "bin/vcheck %s --tier thorough" % pid,
        "evidence_file": "/verif/evidence/%s.json" % pid,
        "replay_cmd_template": "bin/vcheck replay %s {path}" % pid,
        "engine": t["engine"],
        "level_claimed": {"category": c["level"], "text": t["text"], "design_ref": t["design_ref"]},
        "level_note": t["note"],
        "technique": c["technique"],
    })
claimed = {c["property_id"] for c in m["checks"]}
m["not_applicable"] = [n for n in NOT_APPLICABLE if n["property_id"] not in claimed]
json.dump(m, open(os.path.join(V, "MANIFEST.json"), "w"), indent=1)
print("MANIFEST.json: %d checks, %d not_applicable" % (len(m["checks"]), len(m["not_applicable"])))
