#!/usr/bin/env python3
"""Regenerates the machine-written regions of DESIGN.md (between <!-- BEGIN:x --> and <!-- END:x --> markers):
   coverage  — per-check numbers from evidence/*.json (whatever tier was run last)
   seedtable — lib/seedtable.py output"""
import json, os, re, subprocess, sys
V = os.path.dirname(os.path.dirname(os.path.abspath(__file__)))
sys.path.insert(0, os.path.join(V, "lib"))
from checks import CHECKS
rows = ["| id | level | tier | evaluations | distinct non-trivial | states | transitions | validated against impl. | exhaustive within bounds | known-finding members | wall |",
        "|---|---|---|---|---|---|---|---|---|---|---|"]
for pid in sorted(CHECKS):
    p = os.path.join(V, "evidence", pid + ".json")
    if not os.path.exists(p):
        continue
    e = json.load(open(p)); c = e["coverage"]
    rows.append("| %s | %s | %s | %s | %s | %s | %s | %s | %s | %s | %.0f s |" % (
        pid, e["level"], e["tier"], f'{c["evaluations"]:,}', f'{c["distinct_nontrivial"]:,}', f'{c.get("states", 0):,}', f'{c.get("transitions", 0):,}',
        f'{c.get("traces_validated_against_impl", 0):,}', "yes" if c["exhaustive"] else "no (caps: %s)" % "; ".join(c.get("caps_hit", []))[:80],
        e.get("known_finding_members", 0), e["wall_s"]))
regions = {"coverage": "\n".join(rows),
           "seedtable": subprocess.check_output([sys.executable, os.path.join(V, "lib", "seedtable.py")]).decode().strip()}
s = open(os.path.join(V, "DESIGN.md")).read()
for k, body in regions.items():
    pat = re.compile(r"(<!-- BEGIN:%s -->\n).*?(<!-- END:%s -->)" % (k, k), re.S)
    if not pat.search(s):
        print("marker for %s missing" % k); continue
    s = pat.sub(lambda m: m.group(1) + body + "\n" + m.group(2), s)
open(os.path.join(V, "DESIGN.md"), "w").write(s)
print("DESIGN.md regions updated")
